"""De-extraction: inline helper methods/functions that are not part of the frozen function
inventory (known_functions.txt) into their callers, so that an extract-method refactoring
is transparent to the rules.  Only simple shapes are inlined; anything else stays a call.

A helper H (method of class C, or module-level function) is inlined at a call site when
  * H's qualified name is not in the inventory (it was introduced after the rules were written),
  * H is not a generator, has no decorators, no *args/**kwargs, no nested defs (lambdas are fine),
  * H is not overridden in a package subclass,
  * its body can be brought into single-exit form (returns only as the last statement or in
    `if c: return x` guard clauses - not inside loops/try/with),
  * the call is a whole statement (`self.h(..)`, `x = self.h(..)`, `return self.h(..)`) or the
    test of an if (`if self.h(..):` / `if not self.h(..):`).
Arguments that are names, attributes or constants are substituted for the parameters (the
inlined text then equals the pre-refactoring text); other arguments are bound by an assignment.
"""
import ast
import copy
import os

_KNOWN = None


def known_functions():
    global _KNOWN
    if _KNOWN is None:
        p = os.path.join(os.path.dirname(__file__), 'known_functions.txt')
        _KNOWN = {l.split()[0] for l in open(p) if l.strip()} if os.path.exists(p) else set()
    return _KNOWN


class NoInline(Exception):
    pass


def _has(node, types):
    return any(isinstance(n, types) for n in ast.walk(node))


def _single_exit(stmts, ret):
    """Rewrite stmts (a function body) so that every `return e` becomes `ret = e` and control
    falls to the end.  Supports returns as last statement and guard-clause ifs."""
    out = []
    for i, s in enumerate(stmts):
        rest = stmts[i + 1:]
        if isinstance(s, ast.Return):
            if rest:
                raise NoInline('code after return')
            out.append(ast.Assign(targets=[ast.Name(id=ret, ctx=ast.Store())], value=s.value or ast.Constant(value=None)))
            return out
        if isinstance(s, ast.If) and _has(s, ast.Return):
            body = _single_exit(s.body, ret)
            if _always_returns(s.body):
                # if c: ...return    <rest>   ->   if c: ... else: <rest>
                orelse = _single_exit(s.orelse + rest, ret) if (s.orelse or rest) else []
                out.append(ast.If(test=s.test, body=body or [ast.Pass()], orelse=orelse))
                return out
            if s.orelse and _always_returns(s.orelse):
                orelse = _single_exit(s.orelse, ret)
                body2 = _single_exit(s.body + rest, ret)
                out.append(ast.If(test=s.test, body=body2 or [ast.Pass()], orelse=orelse))
                return out
            raise NoInline('return in a branch that can fall through')
        if isinstance(s, ast.Try) and _has(s, ast.Return) and not s.finalbody and not s.orelse and _always_returns(s.body) \
                and not any(_has(x, ast.Return) for x in s.body[:-1] if not isinstance(x, ast.If)):
            # try: A; return X  except E: B  <rest>    ->    try: A; ret = X  except E: B; <rest>
            # (the code after the try runs only when a handler falls through; it moves into the handlers)
            import copy as _copy
            body = _single_exit(s.body, ret)
            handlers = []
            for h in s.handlers:
                hb = _single_exit(list(h.body) + [_copy.deepcopy(x) for x in rest], ret) if not _always_raises(h.body) else list(h.body)
                handlers.append(ast.ExceptHandler(type=h.type, name=h.name, body=hb or [ast.Pass()]))
            out.append(ast.Try(body=body, handlers=handlers, orelse=[], finalbody=[]))
            return out
        if _has(s, ast.Return):
            raise NoInline('return inside loop/try/with')
        out.append(s)
    return out


def _always_raises(stmts):
    return bool(stmts) and isinstance(stmts[-1], ast.Raise)


def _always_returns(stmts):
    if not stmts:
        return False
    last = stmts[-1]
    if isinstance(last, (ast.Return, ast.Raise)):
        return True
    if isinstance(last, ast.If) and last.orelse:
        return _always_returns(last.body) and _always_returns(last.orelse)
    return False


class _Subst(ast.NodeTransformer):
    def __init__(self, mapping):
        self.mapping = mapping

    def visit_Name(self, node):
        if node.id in self.mapping and isinstance(node.ctx, ast.Load):
            return copy.deepcopy(self.mapping[node.id])
        return node


def _simple(arg):
    if isinstance(arg, (ast.Name, ast.Constant)):
        return True
    # an attribute argument is bound by assignment (`p = self._x`), not substituted: the helper may change the
    # attribute before it reads the parameter; the pure-local propagation decides afterwards whether moving the read is sound
    return False


def _bind(fn, call, is_method):
    a = fn.args
    if a.vararg or a.kwarg or a.posonlyargs:
        raise NoInline('star parameters')
    params = [x.arg for x in a.args]
    if is_method:
        params = params[1:]
    defaults = dict(zip(params[len(params) - len(a.defaults):], a.defaults)) if a.defaults else {}
    kwonly = [x.arg for x in a.kwonlyargs]
    for k, d in zip(kwonly, a.kw_defaults):
        if d is not None:
            defaults[k] = d
    bound = {}
    if any(isinstance(x, ast.Starred) for x in call.args) or any(k.arg is None for k in call.keywords):
        raise NoInline('star arguments')
    if len(call.args) > len(params):
        raise NoInline('too many arguments')
    for p, v in zip(params, call.args):
        bound[p] = v
    for k in call.keywords:
        if k.arg not in params + kwonly or k.arg in bound:
            raise NoInline('bad keyword')
        bound[k.arg] = k.value
    for p in params + kwonly:
        if p not in bound:
            if p in defaults:
                bound[p] = defaults[p]
            else:
                raise NoInline('missing argument')
    return bound


def _stores(fn):
    return {n.id for n in ast.walk(fn) if isinstance(n, ast.Name) and isinstance(n.ctx, (ast.Store, ast.Del))}


def expand_tail(fn, call, is_method):
    """`return h(...)`: the helper's body verbatim (its returns are the caller's returns)."""
    if fn.decorator_list or _has(fn, (ast.Yield, ast.YieldFrom, ast.Await)) or \
            any(isinstance(n, (ast.FunctionDef, ast.AsyncFunctionDef, ast.ClassDef)) and n is not fn for n in ast.walk(fn)):
        raise NoInline('shape')
    bound = _bind(fn, call, is_method)
    body = [copy.deepcopy(s) for s in fn.body]
    if body and isinstance(body[0], ast.Expr) and isinstance(body[0].value, ast.Constant) and isinstance(body[0].value.value, str):
        body = body[1:]
    stores = _stores(fn)
    prefix, mapping = [], {}
    for p, v in bound.items():
        if _simple(v) and p not in stores:
            mapping[p] = v
        elif not (isinstance(v, ast.Name) and v.id == p):
            prefix.append(ast.Assign(targets=[ast.Name(id=p, ctx=ast.Store())], value=copy.deepcopy(v)))
    sub = _Subst(mapping)
    body = [sub.visit(s) for s in body]
    if not _always_returns(body):
        body.append(ast.Return(value=ast.Constant(value=None)))
    return prefix + body


class _RenameLocals(ast.NodeTransformer):
    def __init__(self, mapping):
        self.mapping = mapping

    def visit_Name(self, node):
        if node.id in self.mapping:
            return ast.copy_location(ast.Name(id=self.mapping[node.id], ctx=node.ctx), node)
        return node

    def visit_arg(self, node):
        if node.arg in self.mapping:
            node.arg = self.mapping[node.arg]
        return node


def _freshen(fn, clash, uid):
    """A copy of the helper with every local in `clash` renamed apart (no capture of the caller's names)."""
    if not clash:
        return fn
    fn2 = copy.deepcopy(fn)
    return _RenameLocals({n: f'{n}__h{uid}' for n in clash}).visit(fn2)


def expand(fn, call, is_method, uid, clash=()):
    """-> (prefix statements, result expression or None)"""
    fn = _freshen(fn, clash, uid)
    if fn.decorator_list or _has(fn, (ast.Yield, ast.YieldFrom, ast.Await)) or \
            any(isinstance(n, (ast.FunctionDef, ast.AsyncFunctionDef, ast.ClassDef)) and n is not fn for n in ast.walk(fn)):
        raise NoInline('shape')
    bound = _bind(fn, call, is_method)
    body = [copy.deepcopy(s) for s in fn.body]
    if body and isinstance(body[0], ast.Expr) and isinstance(body[0].value, ast.Constant) and isinstance(body[0].value.value, str):
        body = body[1:]
    ret = f'{fn.name.strip("_")}_result'
    uses_return_value = _has(fn, ast.Return) and any(isinstance(n, ast.Return) and n.value is not None for n in ast.walk(fn))
    body = _single_exit(body, ret)
    stores = _stores(fn)
    prefix, mapping = [], {}
    for p, v in bound.items():
        if _simple(v) and p not in stores:
            mapping[p] = v
        else:
            if isinstance(v, ast.Name) and v.id == p:
                continue
            prefix.append(ast.Assign(targets=[ast.Name(id=p, ctx=ast.Store())], value=copy.deepcopy(v)))
    sub = _Subst(mapping)
    body = [sub.visit(s) for s in body]
    if uses_return_value and body and isinstance(body[-1], ast.Assign) and isinstance(body[-1].targets[0], ast.Name) \
            and body[-1].targets[0].id == ret and sum(1 for s in body for n in ast.walk(s) if isinstance(n, ast.Name) and n.id == ret) == 1:
        # single `result = e` as the last statement: hand e itself to the use site
        return prefix + body[:-1], body[-1].value
    if not uses_return_value:
        body = [s for s in body if not (isinstance(s, ast.Assign) and isinstance(s.targets[0], ast.Name) and s.targets[0].id == ret
                                        and isinstance(s.value, ast.Constant) and s.value.value is None)]
    return prefix + body, (ast.Name(id=ret, ctx=ast.Load()) if uses_return_value else None)


class Inliner:
    def __init__(self, trees, mode='unknown'):
        """trees: {module short name: ast.Module}
        mode 'unknown': inline (and drop when dead) helpers that are not in the inventory;
        mode 'all': additionally inline every private, non-overridden same-class helper and
        keep all definitions - the "fully expanded view" used by rules that must not depend
        on how a method is cut into helpers."""
        self.trees = trees
        self.mode = mode
        self.known = known_functions() if mode == 'unknown' else set()
        # a helper that is (or may be) overridden is never inlined: classes related by inheritance
        # (bases resolved by bare name over the whole package) that define the same method name
        classes = {}
        for mod, tree in trees.items():
            for cls in [n for n in ast.walk(tree) if isinstance(n, ast.ClassDef)]:
                classes.setdefault(cls.name, []).append(cls)
        def bases_of(cls, seen):
            out = []
            for b in cls.bases:
                bn = b.id if isinstance(b, ast.Name) else (b.attr if isinstance(b, ast.Attribute) else None)
                for bc in classes.get(bn, []):
                    if id(bc) not in seen:
                        seen.add(id(bc))
                        out.append(bc)
                        out += bases_of(bc, seen)
            return out
        related = {}
        for lst in classes.values():
            for cls in lst:
                for b in bases_of(cls, {id(cls)}):
                    related.setdefault(id(cls), []).append(b)
                    related.setdefault(id(b), []).append(cls)
        self.overridden = set()  # (id(class), method name)
        for lst in classes.values():
            for cls in lst:
                mine = {n.name for n in cls.body if isinstance(n, ast.FunctionDef)}
                for other in related.get(id(cls), []):
                    for n in other.body:
                        if isinstance(n, ast.FunctionDef) and n.name in mine:
                            self.overridden.add((id(cls), n.name))
        self.count = 0
        self.notes = []

    def run(self):
        if not self.known and self.mode == 'unknown':
            return
        for _ in range(3):  # helpers calling helpers
            changed = False
            for mod, tree in self.trees.items():
                # module-level functions
                mfuncs = {n.name: n for n in tree.body if isinstance(n, ast.FunctionDef) and f'{mod}.{n.name}' not in self.known}
                for cls in [n for n in ast.walk(tree) if isinstance(n, ast.ClassDef)]:
                    cands = {n.name: n for n in cls.body if isinstance(n, ast.FunctionDef) and f'{mod}.{cls.name}.{n.name}' not in self.known
                             and not n.name.startswith('__') and (id(cls), n.name) not in self.overridden
                             and (self.mode == 'unknown' or n.name.startswith('_'))}
                    if not cands and not mfuncs:
                        continue
                    for m in [n for n in cls.body if isinstance(n, ast.FunctionDef)]:
                        changed |= self._inline_in(m, cands, mfuncs, mod, cls.name)
                if mfuncs:
                    for f in [n for n in tree.body if isinstance(n, ast.FunctionDef)]:
                        changed |= self._inline_in(f, {}, mfuncs, mod, None)
            if not changed:
                break
        self._expression_helpers()
        if self.mode == 'unknown':
            self._drop_dead_helpers()
        for tree in self.trees.values():
            ast.fix_missing_locations(tree)

    def _expression_helpers(self):
        """A helper outside the inventory whose whole body is `return <expression>` is substituted at
        every call `self.h(args)` / `h(args)` wherever it occurs in an expression (arguments that are
        plain names / attributes / constants only - otherwise the call stays)."""
        for mod, tree in self.trees.items():
            mfuncs = {n.name: n for n in tree.body if isinstance(n, ast.FunctionDef) and self._is_candidate(mod, None, n)}
            for cls in [None] + [n for n in ast.walk(tree) if isinstance(n, ast.ClassDef)]:
                cands = {}
                if cls is not None:
                    cands = {n.name: n for n in cls.body if isinstance(n, ast.FunctionDef) and self._is_candidate(mod, cls, n)}
                cands = {k: v for k, v in cands.items() if self._expr_body(v) is not None}
                mf = {k: v for k, v in mfuncs.items() if self._expr_body(v) is not None}
                if not cands and not mf:
                    continue
                scope = cls if cls is not None else tree
                inl = self

                class T(ast.NodeTransformer):
                    def visit_Call(self, node):
                        self.generic_visit(node)
                        f = node.func
                        tgt, is_method = None, False
                        if isinstance(f, ast.Attribute) and isinstance(f.value, ast.Name) and f.value.id == 'self' and f.attr in cands:
                            tgt, is_method = cands[f.attr], True
                        elif isinstance(f, ast.Name) and f.id in mf:
                            tgt = mf[f.id]
                        if tgt is None:
                            return node
                        try:
                            bound = _bind(tgt, node, is_method)
                        except NoInline:
                            return node
                        if not all(_simple(v) for v in bound.values()):
                            return node
                        e = copy.deepcopy(inl._expr_body(tgt))
                        e = _Subst(bound).visit(e)
                        inl.count += 1
                        inl.notes.append(f'{mod}: inlined expression helper {tgt.name}')
                        return ast.copy_location(e, node)
                for fn in [n for n in (scope.body if cls is not None else tree.body) if isinstance(n, ast.FunctionDef)]:
                    if fn.name in cands or (cls is None and fn.name in mf):
                        continue
                    T().visit(fn)
                if cls is None:
                    for c2 in [n for n in ast.walk(tree) if isinstance(n, ast.ClassDef)]:
                        for fn in [n for n in c2.body if isinstance(n, ast.FunctionDef)]:
                            if mf:
                                T().visit(fn)

    def _is_candidate(self, mod, cls, n):
        if n.name.startswith('__') or n.decorator_list:
            return False
        if cls is None:
            return f'{mod}.{n.name}' not in self.known if self.mode == 'unknown' else True
        if (id(cls), n.name) in self.overridden:
            return False
        if self.mode == 'unknown':
            return f'{mod}.{cls.name}.{n.name}' not in self.known
        return True

    @staticmethod
    def _expr_body(fn):
        body = fn.body
        if body and isinstance(body[0], ast.Expr) and isinstance(body[0].value, ast.Constant) and isinstance(body[0].value.value, str):
            body = body[1:]
        body = [s_ for s_ in body if not isinstance(s_, ast.Pass)]
        if fn.args.vararg or fn.args.kwarg or _has(fn, (ast.Yield, ast.YieldFrom, ast.Await, ast.Lambda, ast.NamedExpr)):
            return None
        if len(body) == 1 and isinstance(body[0], ast.Return) and body[0].value is not None:
            return body[0].value
        # t = E ; return t
        if len(body) == 2 and isinstance(body[0], ast.Assign) and len(body[0].targets) == 1 and isinstance(body[0].targets[0], ast.Name) \
                and isinstance(body[1], ast.Return) and isinstance(body[1].value, ast.Name) and body[1].value.id == body[0].targets[0].id:
            return body[0].value
        return None

    def _drop_dead_helpers(self):
        """A helper outside the inventory that was inlined at every use is dead: remove its
        definition so that rules scanning whole classes see the pre-extraction shape only."""
        inlined = {n.rsplit(' ', 1)[-1] for n in self.notes if ': inlined ' in n}
        if not inlined:
            return
        used = set()
        for tree in self.trees.values():
            for n in ast.walk(tree):
                if isinstance(n, ast.Attribute):
                    used.add(n.attr)
                elif isinstance(n, ast.Name):
                    used.add(n.id)
                elif isinstance(n, ast.Constant) and isinstance(n.value, str):
                    used.add(n.value)
        for mod, tree in self.trees.items():
            for owner in [tree] + [n for n in ast.walk(tree) if isinstance(n, ast.ClassDef)]:
                q = mod if owner is tree else f'{mod}.{owner.name}'
                keep = []
                for st in owner.body:
                    if isinstance(st, ast.FunctionDef) and st.name in inlined and st.name not in used and f'{q}.{st.name}' not in self.known:
                        self.notes.append(f'{q}.{st.name}: dead after inlining, dropped')
                        continue
                    keep.append(st)
                owner.body = keep or [ast.Pass()]

    def _target(self, call, cands, mfuncs, this):
        f = call.func
        if isinstance(f, ast.Attribute) and isinstance(f.value, ast.Name) and f.value.id == 'self' and f.attr in cands and cands[f.attr] is not this:
            return cands[f.attr], True
        if isinstance(f, ast.Name) and f.id in mfuncs and mfuncs[f.id] is not this:
            return mfuncs[f.id], False
        return None, False

    @staticmethod
    def _in_tail_position(func, stmt):
        """stmt is the last statement executed by func on its path: last of the function body, or last of a with / try body (no else) /
        if branch that is itself in tail position.  Loops and handlers do not qualify."""
        parent = {}
        for p_ in ast.walk(func):
            for ch in ast.iter_child_nodes(p_):
                parent[id(ch)] = p_
        node = stmt
        while node is not func:
            par = parent.get(id(node))
            if par is None:
                return False
            if par is func:
                return func.body[-1] is node
            if isinstance(par, (ast.With, ast.AsyncWith)):
                ok = par.body[-1] is node
            elif isinstance(par, ast.If):
                ok = (par.body and par.body[-1] is node) or (par.orelse and par.orelse[-1] is node)
            elif isinstance(par, ast.Try):
                ok = (par.body and par.body[-1] is node and not par.orelse) or (par.orelse and par.orelse[-1] is node)
            else:
                return False
            if not ok:
                return False
            node = par
        return True

    @staticmethod
    def _clash(func, stmt, call, tgt, is_method, form):
        """Locals (and parameters) of the helper that must be renamed apart before its body is spliced into `func`:
        names the helper stores that the caller still reads after the call (or anywhere in a loop round the call), or that
        occur in the argument expressions (they would capture a substituted parameter).  A name that simply flows into the
        same-named assignment target of the call is not a clash (`x = self._h()` where the helper returns its local x)."""
        params = [a.arg for a in tgt.args.args][1 if is_method else 0:]
        hstores = _stores(tgt) | set(params)
        pos = (getattr(stmt, 'end_lineno', stmt.lineno), getattr(stmt, 'end_col_offset', 0))
        loops = []
        for n in ast.walk(func):
            if isinstance(n, (ast.For, ast.While)) and any(x is stmt for x in ast.walk(n)):
                loops.append(n)
        live = set()
        for n in ast.walk(func):
            if isinstance(n, ast.Name) and isinstance(n.ctx, ast.Load) and n.id in hstores and hasattr(n, 'lineno'):
                if (n.lineno, n.col_offset) >= pos and not any(n is x for x in ast.walk(stmt)):
                    live.add(n.id)
        for lp in loops:
            for n in ast.walk(lp):
                if isinstance(n, ast.Name) and isinstance(n.ctx, ast.Load) and n.id in hstores and not any(n is x for x in ast.walk(stmt)):
                    live.add(n.id)
        in_args = {n.id for a in list(call.args) + [k.value for k in call.keywords] for n in ast.walk(a) if isinstance(n, ast.Name)}
        clash = (live | (in_args & hstores))
        # a parameter passed its own name needs no renaming; neither does the value that flows into the same-named target
        same = {p for p in params if any(isinstance(a, ast.Name) and a.id == p for a in list(call.args) + [k.value for k in call.keywords])}
        flows = set()
        if form == 'assign':
            t0 = stmt.targets[0]
            tn = {t0.id} if isinstance(t0, ast.Name) else ({e.id for e in t0.elts if isinstance(e, ast.Name)} if isinstance(t0, ast.Tuple) else set())
            rets = [r.value for r in ast.walk(tgt) if isinstance(r, ast.Return) and r.value is not None]
            rn = set()
            for r in rets:
                if isinstance(r, ast.Name):
                    rn.add(r.id)
                elif isinstance(r, ast.Tuple):
                    rn |= {e.id for e in r.elts if isinstance(e, ast.Name)}
            flows = tn & rn
        return sorted(clash - same - flows)

    def _inline_in(self, func, cands, mfuncs, mod, clsname):
        changed = False

        def block(stmts):
            nonlocal changed
            out = []
            for s in stmts:
                for fld in ('body', 'orelse', 'finalbody'):
                    b = getattr(s, fld, None)
                    if isinstance(b, list) and b and isinstance(b[0], ast.stmt):
                        setattr(s, fld, block(b))
                if isinstance(s, ast.Try):
                    for h in s.handlers:
                        h.body = block(h.body)
                call, form = None, None
                if isinstance(s, ast.Expr) and isinstance(s.value, ast.Call) and self._target(s.value, cands, mfuncs, func)[0] is None:
                    outer = s.value
                    inner = [a for a in list(outer.args) + [k.value for k in outer.keywords] if isinstance(a, ast.Call) and self._target(a, cands, mfuncs, func)[0] is not None]
                    others = [a for a in list(outer.args) + [k.value for k in outer.keywords] if not (inner and a is inner[0])]
                    if len(inner) == 1 and all(isinstance(a, (ast.Name, ast.Constant, ast.Attribute)) for a in others) \
                            and all(isinstance(x, (ast.Name, ast.Attribute, ast.expr_context)) for x in ast.walk(outer.func)):
                        tmp = f'{self._target(inner[0], cands, mfuncs, func)[0].name.strip("_")}_value__h{self.count}'
                        pre_stmt = ast.copy_location(ast.Assign(targets=[ast.Name(id=tmp, ctx=ast.Store())], value=inner[0]), s)
                        repl = ast.copy_location(ast.Name(id=tmp, ctx=ast.Load()), inner[0])
                        outer.args = [repl if a is inner[0] else a for a in outer.args]
                        for k in outer.keywords:
                            if k.value is inner[0]:
                                k.value = repl
                        ast.fix_missing_locations(pre_stmt)
                        stmts_in = [pre_stmt, s]
                        res_ = block([pre_stmt])
                        out.extend(res_)
                        out.append(s)
                        changed = True
                        self.count += 1
                        continue
                if isinstance(s, ast.Expr) and isinstance(s.value, ast.Call):
                    call, form = s.value, 'expr'
                elif isinstance(s, ast.Assign) and isinstance(s.value, ast.Call) and len(s.targets) == 1:
                    call, form = s.value, 'assign'
                elif isinstance(s, ast.Return) and isinstance(s.value, ast.Call):
                    call, form = s.value, 'return'
                elif isinstance(s, ast.If) and isinstance(s.test, ast.Call):
                    call, form = s.test, 'if'
                elif isinstance(s, ast.If) and isinstance(s.test, ast.UnaryOp) and isinstance(s.test.op, ast.Not) and isinstance(s.test.operand, ast.Call):
                    call, form = s.test.operand, 'ifnot'
                if call is not None:
                    tgt, is_method = self._target(call, cands, mfuncs, func)
                    if tgt is not None and form == 'expr' and self._in_tail_position(func, s) \
                            and all(r.value is None or (isinstance(r.value, ast.Constant) and r.value.value is None) for r in ast.walk(tgt) if isinstance(r, ast.Return)) \
                            and any(isinstance(r, ast.Return) for r in ast.walk(tgt)):
                        # `h(...)` as the last thing the caller does on this path, the value unused, the helper returning nothing: its
                        # body stands there verbatim (its bare returns end the caller as they ended the helper; enclosing finally
                        # blocks run either way)
                        form = 'return'
                    if tgt is not None:
                        try:
                            if form == 'return':
                                tail = expand_tail(tgt, call, is_method)
                                for x in tail:
                                    for y in ast.walk(x):
                                        if not hasattr(y, 'lineno') and isinstance(y, (ast.stmt, ast.expr)):
                                            ast.copy_location(y, s)
                                out.extend(tail)
                                self.count += 1
                                self.notes.append(f'{mod}.{clsname + "." if clsname else ""}{func.name}: inlined {tgt.name}')
                                changed = True
                                continue
                            pre, res = expand(tgt, call, is_method, self.count, self._clash(func, s, call, tgt, is_method, form))
                            for x in pre:
                                ast.copy_location(x, s)
                                for y in ast.walk(x):
                                    if not hasattr(y, 'lineno'):
                                        ast.copy_location(y, s)
                            if form == 'expr':
                                out.extend(pre)
                                if res is not None and any(isinstance(x, ast.Call) for x in ast.walk(res)):
                                    # the helper's value is unused here, but computing it has effects (it is a call): keep it as a statement
                                    out.append(ast.copy_location(ast.Expr(value=res), s))
                            elif form == 'assign':
                                if res is None:
                                    raise NoInline('no value')
                                out.extend(pre)
                                t0 = s.targets[0]
                                if isinstance(t0, ast.Tuple) and isinstance(res, ast.Tuple) and len(t0.elts) == len(res.elts) \
                                        and all(isinstance(e, ast.Name) for e in t0.elts) and all(isinstance(e, ast.Name) for e in res.elts) \
                                        and not ({e.id for e in t0.elts} & {r.id for e, r in zip(t0.elts, res.elts) if e.id != r.id}):
                                    # a, b = (x, y): element-wise (identical names need no copy)
                                    for e, r in zip(t0.elts, res.elts):
                                        if e.id != r.id:
                                            out.append(ast.copy_location(ast.Assign(targets=[e], value=r), s))
                                elif not (isinstance(res, ast.Name) and isinstance(t0, ast.Name) and res.id == t0.id):
                                    out.append(ast.copy_location(ast.Assign(targets=s.targets, value=res), s))
                            elif form == 'return':
                                out.extend(pre)
                                out.append(ast.copy_location(ast.Return(value=res), s))
                            elif form in ('if', 'ifnot'):
                                if res is None:
                                    raise NoInline('no value')
                                out.extend(pre)
                                s.test = res if form == 'if' else ast.UnaryOp(op=ast.Not(), operand=res)
                                out.append(s)
                            self.count += 1
                            self.notes.append(f'{mod}.{clsname + "." if clsname else ""}{func.name}: inlined {tgt.name}')
                            changed = True
                            continue
                        except NoInline as e:
                            self.notes.append(f'{mod}.{func.name}: {tgt.name} not inlined ({e})')
                out.append(s)
            return out
        func.body = block(func.body)
        return changed
